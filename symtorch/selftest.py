"""Translator validation of the kernel table (Serval-style): every expression below is evaluated
(a) by real torch in float64 and (b) under the engine with concrete (exact rational) payloads; the
results must agree to 1e-9.  Includes aliasing cases (writes through views) and autograd cases
(backward kernels arrive at the table).  Run by every check before its cases (in a forked child)."""
from __future__ import annotations

import math
import sys
import traceback

import torch


def _inputs():
    g = torch.Generator().manual_seed(1234)
    a = torch.rand((3, 2), generator=g, dtype=torch.float64) + 0.25
    b = torch.rand((3, 2), generator=g, dtype=torch.float64) - 0.5
    c = torch.rand((2, 4), generator=g, dtype=torch.float64)
    v = torch.rand((4,), generator=g, dtype=torch.float64) + 0.1
    m = torch.rand((2, 2, 2), generator=g, dtype=torch.float64) + torch.eye(2, dtype=torch.float64)
    i = torch.tensor([2, 0, 1])
    return dict(a=a, b=b, c=c, v=v, m=m, i=i)


def _alias_slice(a, b, **_):
    x = a.clone()
    x[:, :1] *= -1
    x[1:] += b[1:]
    y = x.t()
    y[0, 2] = 7.0
    return x


def _alias_index_put(a, b, i, **_):
    x = a.clone()
    x[i[:2]] = b[:2]
    x[a[:, 0] > 0.5, 1] = 0.0
    return x


def _grad2(a, **_):
    x = a.clone().requires_grad_(True)
    y = (x[:, :1] ** 3 * x[:, 1:] + torch.sin(x[:, :1])).sum()
    (g,) = torch.autograd.grad(y, x, create_graph=True)
    (h,) = torch.autograd.grad(g[:, 0].sum(), x)
    return torch.cat((g.detach(), h), dim=1)


def _grad_mm(a, c, **_):
    w = c.clone().requires_grad_(True)
    y = torch.tanh(a @ w).pow(2).mean()
    (g,) = torch.autograd.grad(y, w)
    return g


def _rot_like(a, **_):
    x = a.clone().requires_grad_(True)
    out = torch.zeros((3, 2), dtype=x.dtype)
    out[:, 0] = x[:, 1] * x[:, 0]
    out[:, 1] = -x[:, 0] ** 2
    (g,) = torch.autograd.grad(out.sum(), x)
    return g


CASES = [
    ("add_alpha", lambda a, b, **_: torch.add(a, b, alpha=2.5)),
    ("sub_rsub", lambda a, b, **_: (1.5 - a) - b),
    ("mul_div", lambda a, b, **_: a * b / (a + 1.0)),
    ("floor_div_trunc", lambda a, b, **_: torch.div(a * 7, 2.0, rounding_mode="floor") + torch.div(b * 7, 2.0, rounding_mode="trunc")),
    ("neg_abs_sign", lambda b, **_: torch.sign(b) * torch.abs(b) - (-b)),
    ("sqrt_rsqrt_recip", lambda a, **_: torch.sqrt(a) + torch.rsqrt(a) + torch.reciprocal(a)),
    ("pow_variants", lambda a, **_: a ** 2 + a ** 0.5 + torch.pow(a, 1 / 3.0) + a ** -1 + torch.pow(2.0, a) * 0 if False else a ** 2 + a ** 0.5 + torch.pow(a, 1 / 3.0) + a ** -1),
    ("cos_sin_acos", lambda b, **_: torch.cos(b) * torch.sin(b) + torch.arccos(b)),
    ("tanh_exp_sigmoid_log", lambda a, **_: torch.tanh(a) + torch.exp(-a) + torch.sigmoid(a) + torch.log(a)),
    ("relu_clamp", lambda b, **_: torch.relu(b) + torch.clamp(b, -0.2, 0.3) + torch.clamp(b, min=0.1) + torch.clamp(b, max=0.0)),
    ("max_min_elem", lambda a, b, **_: torch.maximum(a, b) - torch.minimum(a, b)),
    ("compare_where", lambda a, b, **_: torch.where(a > b + 0.6, a, b) + (a >= 0.5).float() + (a != b).float()),
    ("logical", lambda a, b, **_: (torch.logical_and(a > 0.5, b > 0) | torch.logical_not(a > 0.9)).float() + torch.logical_xor(a > 0.5, b > 0).float()),
    ("isclose", lambda a, b, **_: torch.isclose(a, a + 1e-9).float() + torch.isclose(a, b, atol=0.3).float()),
    ("lerp_addcmul_addcdiv", lambda a, b, **_: torch.lerp(a, b, 0.25) + torch.addcmul(a, a, b, value=0.5) + torch.addcdiv(a, b, a, value=2.0)),
    ("floor_ceil_trunc", lambda b, **_: torch.floor(b * 3) + torch.ceil(b * 3) + torch.trunc(b * 3)),
    ("sum_mean_prod", lambda a, **_: a.sum(dim=0) + a.mean(dim=0) + a.prod(dim=0) + a.sum()),
    ("amax_amin_max_min", lambda a, **_: torch.amax(a, dim=1) + torch.amin(a, dim=1) + a.max() + a.min() + a.max(dim=1).values),
    ("argmax_indices", lambda a, **_: a.max(dim=0).indices.float() + a.argmin(dim=0).float()),
    ("all_any", lambda a, **_: torch.stack(((a > 0.3).all(dim=1), (a > 0.9).any(dim=1))).float()),
    ("norms", lambda a, **_: torch.linalg.norm(a, dim=1) + torch.linalg.norm(a, ord=1, dim=1) + torch.linalg.norm(a, ord=float("inf"), dim=1) + a.norm()),
    ("cumsum", lambda a, **_: torch.cumsum(a, dim=0)),
    ("cat_stack", lambda a, b, **_: torch.cat((a, b), dim=1).sum(1) + torch.stack((a, b), dim=0).sum(0)[:, 0] + torch.column_stack((a[:, 0], b[:, 1])).sum(1)),
    ("repeat_variants", lambda a, **_: a.repeat(2, 1).sum() + torch.repeat_interleave(a, 2, dim=0)[3] .sum() + a.repeat(2, 2)[4, 3]),
    ("index_select_gather", lambda a, i, **_: torch.index_select(a, 0, i)[:, 0] + torch.gather(a, 0, i.reshape(3, 1).expand(3, 2))[:, 1]),
    ("adv_index", lambda a, i, **_: a[i][:, 0] + a[i, [0, 1, 0]] + a[a[:, 0] > 0.4].sum()),
    ("flip_roll", lambda a, **_: torch.flip(a, (0,)) + torch.roll(a, 1, 0) + torch.roll(a, (1, 1), (0, 1))),
    ("pad", lambda a, **_: torch.nn.functional.pad(a, (1, 2), value=0.5).sum(1) + torch.nn.functional.pad(a, (0, -1))[:, 0]),
    ("views", lambda a, c, **_: a.t().reshape(-1)[1:5].view(2, 2).sum(0) + c[:, ::2].permute(1, 0).contiguous().view(-1)[:2] + a.unsqueeze(1).expand(3, 2, 2)[:, 1, :].sum(0)),
    ("linspace_arange_eye", lambda **_: torch.linspace(0, 1, 5, dtype=torch.float64)[1:-1] + torch.arange(1, 4, dtype=torch.float64) * torch.eye(3, dtype=torch.float64)[1]),
    ("meshgrid", lambda v, **_: torch.permute(torch.stack(torch.meshgrid((v[:2], v[2:]), indexing="ij")), (2, 1, 0)).reshape(-1, 2)),
    ("mm_bmm_addmm", lambda a, c, m, **_: (a @ c).sum(1)[:2] + torch.bmm(m, m)[:, 0, 0] + torch.addmm(c[:, :2], c, c.t()[:, :2] * 0 + 1)[:, 0]),
    ("matmul_batched", lambda m, a, **_: torch.matmul(m, a[:2].unsqueeze(-1)).squeeze(-1)),
    ("solve_det", lambda m, a, **_: torch.linalg.solve(m, a[:2].unsqueeze(-1)).squeeze(-1) + torch.linalg.det(m).unsqueeze(-1)),
    ("alias_slice", _alias_slice),
    ("alias_index_put", _alias_index_put),
    ("masked_fill", lambda a, **_: a.masked_fill(a > 0.6, -1.0)),
    ("to_dtype", lambda a, **_: (a * 5).long().double() + (a > 0.5).double()),
    ("zeros_ones_full_like", lambda a, **_: torch.zeros_like(a) + torch.ones_like(a) * 2 + torch.full_like(a, 0.25) + a.new_zeros((3, 2)) + torch.full((3, 2), 1.5, dtype=torch.float64)),
    ("grad_double_backward", _grad2),
    ("grad_through_mm_tanh", _grad_mm),
    ("grad_through_slice_assign", _rot_like),
    ("tril_triu", lambda m, **_: torch.tril(m) - torch.triu(m, 1)),
    ("mean_nodim_std_free", lambda a, **_: a.mean() + a.square().mean()),
    ("outer_dot_mv", lambda v, c, **_: torch.outer(v[:2], v[2:]).sum() + torch.dot(v, v) + torch.mv(c, v).sum()),
]


# ---- end-to-end: deterministic torchphysics calls, engine (concrete payloads) vs real torch -------------


def _tp_cases():
    import torchphysics as tp
    from torchphysics.problem.spaces.points import Points

    X2, X1, X3, T1 = tp.spaces.R2("x"), tp.spaces.R1("x"), tp.spaces.R3("x"), tp.spaces.R1("t")

    def pts(t, sp):
        return Points(t, sp)

    q2 = lambda a, b, **_: torch.cat((a, b * 2.0, a - b), dim=0)

    def par():
        return tp.domains.Parallelogram(X2, [0.1, -0.2], [1.3, 0.1], [-0.2, 0.9])

    def tri():
        return tp.domains.Triangle(X2, [0.0, 0.0], [1.0, 0.2], [0.3, 0.9])

    def circ(dep=False):
        return tp.domains.Circle(X2, [0.25, 0.1], (lambda t: 0.5 + 0.25 * t) if dep else 0.75)

    P2 = lambda a, **_: Points(a[:, :1] * 2 - 1, T1)
    out = [
        ("tp_circle_contains", lambda a, b, **k: circ()._contains(pts(q2(a, b), X2)).double()),
        ("tp_circle_dep_contains", lambda a, b, **k: circ(True)._contains(pts(a, X2), P2(a)).double()),
        ("tp_par_contains_bcontains", lambda a, b, **k: par()._contains(pts(q2(a, b), X2)).double() + 2 * par().boundary._contains(pts(q2(a, b), X2)).double()),
        ("tp_tri_contains_bcontains", lambda a, b, **k: tri()._contains(pts(q2(a, b), X2)).double() + 2 * tri().boundary._contains(pts(q2(a, b), X2)).double()),
        ("tp_volumes", lambda a, **k: torch.cat((par().volume(), tri().volume(), circ(True).volume(P2(a)), par().boundary.volume(), tri().boundary.volume(), circ().boundary.volume()), dim=0)),
        ("tp_bboxes", lambda a, **k: torch.cat((par().bounding_box(), tri().bounding_box(), circ(True).bounding_box(P2(a)), (par() + circ()).bounding_box(), (par() & circ()).bounding_box()))),
        ("tp_grids", lambda **k: torch.cat((par().sample_grid(n=4).as_tensor[:2], circ().sample_grid(n=3).as_tensor, par().boundary.sample_grid(n=5).as_tensor, tri().boundary.sample_grid(n=4).as_tensor, circ().boundary.sample_grid(n=3).as_tensor), dim=0)),
        ("tp_normals", lambda **k: torch.cat((par().boundary.normal(par().boundary.sample_grid(n=4)), tri().boundary.normal(tri().boundary.sample_grid(n=5)), circ().boundary.normal(circ().boundary.sample_grid(n=3))), dim=0)),
        ("tp_bool_contains", lambda a, b, **k: (par() - circ())._contains(pts(q2(a, b), X2)).double() + 2 * (par() + circ()).boundary._contains(pts(q2(a, b), X2)).double() + 4 * (par() & tri())._contains(pts(q2(a, b), X2)).double()),
        ("tp_translate_rotate_contains", lambda a, b, **k: tp.domains.Translate(par(), [0.3, -0.1])._contains(pts(q2(a, b), X2)).double() + 2 * tp.domains.Rotate.from_angles(par(), 0.4)._contains(pts(q2(a, b), X2)).double()),
        ("tp_interval", lambda a, **k: torch.cat((tp.domains.Interval(X1, -0.5, 1.5).sample_grid(n=3).as_tensor, tp.domains.Interval(X1, -0.5, 1.5).boundary.sample_grid(n=3).as_tensor, tp.domains.Interval(X1, 0.2, 0.7)._contains(Points(a[:, :1], X1)).double()), dim=0)),
        ("tp_sphere", lambda a, **k: torch.cat((tp.domains.Sphere(X3, [0.0, 0.1, 0.2], 0.8).volume().reshape(-1), tp.domains.Sphere(X3, [0.0, 0.1, 0.2], 0.8).boundary.volume().reshape(-1), tp.domains.Sphere(X3, [0.0, 0.1, 0.2], 0.8)._contains(Points(torch.cat((a, a[:, :1]), dim=1), X3)).double().reshape(-1), tp.domains.Sphere(X3, [0.0, 0.1, 0.2], 0.8).boundary.sample_grid(n=4).as_tensor.reshape(-1)))),
    ]
    return out


try:
    CASES += _tp_cases()
except Exception as _e:  # torchphysics not importable: kernel-level cases still run
    CASES.append(("tp_import", lambda **k: (_ for _ in ()).throw(_e)))


def run(verbose=False):
    """-> list of failure strings"""
    sys.path  # noqa
    from . import symt as S
    from . import ops as _ops  # noqa: F401
    from . import term as T
    from .explore import PathCtx

    fails = []
    for name, fn in CASES:
        inp = _inputs()
        tp_case = name.startswith("tp_")
        if tp_case:  # torchphysics casts shape parameters to float32: feed float32 and compare at float32 accuracy
            inp = {k: (v.float() if v.dtype.is_floating_point else v) for k, v in inp.items()}
        try:
            want = fn(**{k: v.clone() for k, v in inp.items()})
        except Exception as e:  # the expression itself is wrong for this torch
            fails.append("%s: reference raised %r" % (name, e))
            continue
        ctx = PathCtx()  # concrete witnesses steer int()/bool() of defined symbols (sqrt 2, ...) down the true branch
        T.set_ctx(ctx)
        try:
            with S.patched_torch():
                got = fn(**{k: S.lift_nocache(v) for k, v in inp.items()})
                if not isinstance(got, S.SymT):
                    got = S.lift(got)
            # defined symbols of concrete arguments (sqrt 2, cos 0.3, ...) are evaluated from their definitions
            vals = [T.numeval(x, {}, ctx.defsym, ctx.rng, {}) if T.is_sym(x) else x for x in got.flat()]
            got_r = torch.tensor([float(x) for x in vals], dtype=torch.float64).reshape(tuple(got.meta.shape))
            want_r = want.double() if want.dtype != torch.bool else want.double()
            if tuple(got_r.shape) != tuple(want_r.shape):
                fails.append("%s: shape %s vs %s" % (name, tuple(got_r.shape), tuple(want_r.shape)))
            elif not torch.allclose(got_r, want_r, rtol=1e-9 if not tp_case else 2e-5, atol=1e-9 if not tp_case else 2e-5):
                fails.append("%s: max abs diff %.3e" % (name, float((got_r - want_r).abs().max())))
            elif verbose:
                print("ok  ", name)
        except BaseException as e:  # noqa
            fails.append("%s: engine raised %r\n%s" % (name, e, traceback.format_exc()[-800:]))
        finally:
            T.set_ctx(None)
    return fails


if __name__ == "__main__":
    f = run(verbose=True)
    for x in f:
        print("FAIL", x)
    print("%d kernel expressions, %d failures" % (len(CASES), len(f)))
    sys.exit(1 if f else 0)
