"""Extra kernels needed by checks/c07.py (ATen ops reached only through torch.optim / lr_scheduler code)."""
from __future__ import annotations

import numpy as np  # noqa: F401

from . import term as T  # noqa: F401
from .symt import KERNELS, kernel  # noqa: F401
