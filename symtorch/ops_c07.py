"""Kernels needed only by checks/c07.py (ATen ops reached through torch.optim / lr_scheduler code).

None turned out to be missing: on SymT parameters `torch.optim.SGD` / `Adam` take their single-tensor path and emit
`add_, mul_, add(alpha), neg, clone, lerp_, addcmul_, addcdiv_, sqrt, div, zeros_like`, all of which symtorch/ops.py
already evaluates; the lr schedulers are pure Python.  (`random_`, emitted by torch's DataLoader when it draws its base
seed, runs as a concrete fallback.)  The module is kept as the place for such kernels and is imported by the check.
"""
from __future__ import annotations

from .symt import KERNELS, kernel  # noqa: F401
